//! A minimal compact, non-self-describing serde format in the style of bincode 1.x / postcard / bcs (none of which is available
//! offline): u8 -> one byte; tuples and fixed-size arrays -> the elements without a length prefix; seq -> u64 LE length + elements;
//! newtype structs are transparent.  Used by the `E bin` op (C14: serde round trips must be lossless in such formats too).
#![allow(dead_code)]

use serde::de::{self, DeserializeSeed, SeqAccess, Visitor};
use serde::ser::{self, Impossible};
use serde::{Deserialize, Serialize};
use std::fmt;

#[derive(Debug)]
pub struct Error(String);
impl fmt::Display for Error {
    fn fmt(&self, f: &mut fmt::Formatter) -> fmt::Result {
        f.write_str(&self.0)
    }
}
impl std::error::Error for Error {}
impl ser::Error for Error {
    fn custom<T: fmt::Display>(m: T) -> Self {
        Error(m.to_string())
    }
}
impl de::Error for Error {
    fn custom<T: fmt::Display>(m: T) -> Self {
        Error(m.to_string())
    }
}

// ---------------------------------------------------------------- serializer

struct Ser(Vec<u8>);

fn unsupported<T>(what: &str) -> Result<T, Error> {
    Err(Error(format!("unsupported by this compact format: {what}")))
}

macro_rules! ser_unsupported {
    ($($f:ident($t:ty)),*) => {$(
        fn $f(self, _v: $t) -> Result<(), Error> { unsupported(stringify!($f)) }
    )*};
}

impl<'a> ser::Serializer for &'a mut Ser {
    type Ok = ();
    type Error = Error;
    type SerializeSeq = Self;
    type SerializeTuple = Self;
    type SerializeTupleStruct = Impossible<(), Error>;
    type SerializeTupleVariant = Impossible<(), Error>;
    type SerializeMap = Impossible<(), Error>;
    type SerializeStruct = Impossible<(), Error>;
    type SerializeStructVariant = Impossible<(), Error>;

    fn serialize_u8(self, v: u8) -> Result<(), Error> {
        self.0.push(v);
        Ok(())
    }
    ser_unsupported!(
        serialize_bool(bool), serialize_i8(i8), serialize_i16(i16), serialize_i32(i32),
        serialize_i64(i64), serialize_u16(u16), serialize_u32(u32), serialize_u64(u64),
        serialize_f32(f32), serialize_f64(f64), serialize_char(char), serialize_str(&str)
    );
    fn serialize_bytes(self, v: &[u8]) -> Result<(), Error> {
        self.0.extend_from_slice(&(v.len() as u64).to_le_bytes());
        self.0.extend_from_slice(v);
        Ok(())
    }
    fn serialize_none(self) -> Result<(), Error> {
        unsupported("none")
    }
    fn serialize_some<T: ?Sized + Serialize>(self, _v: &T) -> Result<(), Error> {
        unsupported("some")
    }
    fn serialize_unit(self) -> Result<(), Error> {
        Ok(())
    }
    fn serialize_unit_struct(self, _n: &'static str) -> Result<(), Error> {
        Ok(())
    }
    fn serialize_unit_variant(self, _n: &'static str, _i: u32, _v: &'static str) -> Result<(), Error> {
        unsupported("unit variant")
    }
    fn serialize_newtype_struct<T: ?Sized + Serialize>(self, _n: &'static str, v: &T) -> Result<(), Error> {
        v.serialize(self)
    }
    fn serialize_newtype_variant<T: ?Sized + Serialize>(
        self, _n: &'static str, _i: u32, _v: &'static str, _val: &T,
    ) -> Result<(), Error> {
        unsupported("newtype variant")
    }
    fn serialize_seq(self, len: Option<usize>) -> Result<Self, Error> {
        // Variable-length sequence: length prefix, exactly like bincode.
        let len = len.ok_or_else(|| Error("sequence length required".into()))?;
        self.0.extend_from_slice(&(len as u64).to_le_bytes());
        Ok(self)
    }
    fn serialize_tuple(self, _len: usize) -> Result<Self, Error> {
        // Fixed-length: no prefix, the reader knows the length from the type.
        Ok(self)
    }
    fn serialize_tuple_struct(self, _n: &'static str, _l: usize) -> Result<Self::SerializeTupleStruct, Error> {
        unsupported("tuple struct")
    }
    fn serialize_tuple_variant(
        self, _n: &'static str, _i: u32, _v: &'static str, _l: usize,
    ) -> Result<Self::SerializeTupleVariant, Error> {
        unsupported("tuple variant")
    }
    fn serialize_map(self, _l: Option<usize>) -> Result<Self::SerializeMap, Error> {
        unsupported("map")
    }
    fn serialize_struct(self, _n: &'static str, _l: usize) -> Result<Self::SerializeStruct, Error> {
        unsupported("struct")
    }
    fn serialize_struct_variant(
        self, _n: &'static str, _i: u32, _v: &'static str, _l: usize,
    ) -> Result<Self::SerializeStructVariant, Error> {
        unsupported("struct variant")
    }
}
impl<'a> ser::SerializeSeq for &'a mut Ser {
    type Ok = ();
    type Error = Error;
    fn serialize_element<T: ?Sized + Serialize>(&mut self, v: &T) -> Result<(), Error> {
        v.serialize(&mut **self)
    }
    fn end(self) -> Result<(), Error> {
        Ok(())
    }
}
impl<'a> ser::SerializeTuple for &'a mut Ser {
    type Ok = ();
    type Error = Error;
    fn serialize_element<T: ?Sized + Serialize>(&mut self, v: &T) -> Result<(), Error> {
        v.serialize(&mut **self)
    }
    fn end(self) -> Result<(), Error> {
        Ok(())
    }
}

pub fn to_bytes<T: Serialize>(v: &T) -> Vec<u8> {
    let mut s = Ser(Vec::new());
    v.serialize(&mut s).expect("serialize");
    s.0
}

// -------------------------------------------------------------- deserializer

struct De<'b>(&'b [u8]);

impl<'b> De<'b> {
    fn take(&mut self, n: usize) -> Result<&'b [u8], Error> {
        if self.0.len() < n {
            return Err(Error("unexpected end of input".into()));
        }
        let (head, tail) = self.0.split_at(n);
        self.0 = tail;
        Ok(head)
    }
    fn len_prefix(&mut self) -> Result<usize, Error> {
        Ok(u64::from_le_bytes(self.take(8)?.try_into().unwrap()) as usize)
    }
}

struct Elements<'a, 'b>(&'a mut De<'b>, usize);
impl<'de, 'a, 'b> SeqAccess<'de> for Elements<'a, 'b> {
    type Error = Error;
    fn next_element_seed<T: DeserializeSeed<'de>>(&mut self, seed: T) -> Result<Option<T::Value>, Error> {
        if self.1 == 0 {
            return Ok(None);
        }
        self.1 -= 1;
        seed.deserialize(&mut *self.0).map(Some)
    }
    fn size_hint(&self) -> Option<usize> {
        Some(self.1)
    }
}

impl<'de, 'a, 'b> de::Deserializer<'de> for &'a mut De<'b> {
    type Error = Error;
    fn deserialize_any<V: Visitor<'de>>(self, _v: V) -> Result<V::Value, Error> {
        unsupported("deserialize_any (the format is not self-describing)")
    }
    fn deserialize_u8<V: Visitor<'de>>(self, v: V) -> Result<V::Value, Error> {
        v.visit_u8(self.take(1)?[0])
    }
    fn deserialize_bytes<V: Visitor<'de>>(self, v: V) -> Result<V::Value, Error> {
        let n = self.len_prefix()?;
        v.visit_bytes(self.take(n)?)
    }
    fn deserialize_byte_buf<V: Visitor<'de>>(self, v: V) -> Result<V::Value, Error> {
        self.deserialize_bytes(v)
    }
    fn deserialize_seq<V: Visitor<'de>>(self, v: V) -> Result<V::Value, Error> {
        let n = self.len_prefix()?;
        v.visit_seq(Elements(self, n))
    }
    fn deserialize_tuple<V: Visitor<'de>>(self, len: usize, v: V) -> Result<V::Value, Error> {
        v.visit_seq(Elements(self, len))
    }
    fn deserialize_newtype_struct<V: Visitor<'de>>(self, _n: &'static str, v: V) -> Result<V::Value, Error> {
        v.visit_newtype_struct(self)
    }
    serde::forward_to_deserialize_any! {
        bool i8 i16 i32 i64 i128 u16 u32 u64 u128 f32 f64 char str string option unit
        unit_struct tuple_struct map struct enum identifier ignored_any
    }
}

/// Deserialize one value and report how many input bytes were left over.
pub fn from_bytes<'b, T: Deserialize<'b>>(bytes: &'b [u8]) -> Result<(T, usize), Error> {
    let mut d = De(bytes);
    let v = T::deserialize(&mut d)?;
    Ok((v, d.0.len()))
}

// --------------------------------------------------------------------- tests
