// Line-protocol driver for the real Rust code (blake3 crate from /repo with the verification hooks
// enabled, reference_impl from /repo).  One op per input line, one output line per op.
// Every op runs under catch_unwind; a panic prints PANIC and leaves the registers as they were.

use blake3::hazmat::{self, HasherExt, Mode};
use blake3::traits::digest;
use std::collections::HashMap;
use std::io::{BufRead, Read, Seek, SeekFrom, Write};
use std::panic::{catch_unwind, AssertUnwindSafe};

mod binfmt;
mod kernels;

thread_local! {
    /// the level last selected with `P plat` on this thread ("detect" = no override)
    pub static CURRENT_PLAT: std::cell::RefCell<String> = std::cell::RefCell::new("detect".to_string());
}

fn hex(b: &[u8]) -> String {
    let mut s = String::with_capacity(b.len() * 2);
    for x in b {
        s.push_str(&format!("{:02x}", x));
    }
    s
}

fn unhex(s: &str) -> Option<Vec<u8>> {
    if s == "-" {
        return Some(vec![]);
    }
    if s.len() % 2 != 0 {
        return None;
    }
    let b = s.as_bytes();
    let mut out = Vec::with_capacity(b.len() / 2);
    for i in (0..b.len()).step_by(2) {
        let h = (b[i] as char).to_digit(16)?;
        let l = (b[i + 1] as char).to_digit(16)?;
        out.push((h * 16 + l) as u8);
    }
    Some(out)
}

pub fn pat(n: usize, seed: u64) -> Vec<u8> {
    let mut s = seed;
    let mut v = Vec::with_capacity(n);
    for _ in 0..n {
        s = s.wrapping_mul(6364136223846793005).wrapping_add(1442695040888963407);
        v.push((s >> 56) as u8);
    }
    v
}

/// data argument: `pat <len> <seed>` | `hex <bytes>`; returns (bytes, tokens consumed)
fn parse_data(t: &[&str]) -> Option<(Vec<u8>, usize)> {
    match t.first()? {
        &"pat" => Some((pat(t.get(1)?.parse().ok()?, t.get(2)?.parse().ok()?), 3)),
        &"pats" => {
            let n: usize = t.get(1)?.parse().ok()?;
            let skip: usize = t.get(3)?.parse().ok()?;
            let mut v = pat(n + skip, t.get(2)?.parse().ok()?);
            v.drain(..skip);
            Some((v, 4))
        }
        &"hex" => Some((unhex(t.get(1)?)?, 2)),
        _ => None,
    }
}

/// a 32-byte key stored at a deliberately odd address: offset 1..=8 inside an 8-aligned buffer, chosen from the key bytes
/// (so that `&[u8; 32]` arguments are seen at every alignment; a key is a value, its address must not matter)
#[derive(Clone)]
#[repr(align(8))]
struct KeyBuf {
    buf: [u8; 48],
    off: usize,
}

impl KeyBuf {
    fn new(k: [u8; 32]) -> KeyBuf {
        let off = 1 + (k[1] as usize % 8);
        let mut buf = [0u8; 48];
        buf[off..off + 32].copy_from_slice(&k);
        KeyBuf { buf, off }
    }
    fn key(&self) -> &[u8; 32] {
        <&[u8; 32]>::try_from(&self.buf[self.off..self.off + 32]).unwrap()
    }
}

/// a copy of `d` placed so that it ENDS exactly at an inaccessible page (PROT_NONE): reading one byte past the slice faults.
/// The start address is then `page_end - len`, i.e. every alignment occurs as the length varies.
struct Guarded {
    base: *mut u8,
    map_len: usize,
    off: usize,
}

impl Drop for Guarded {
    fn drop(&mut self) {
        unsafe { libc::munmap(self.base as *mut libc::c_void, self.map_len) };
    }
}

fn misaligned(d: &[u8]) -> Guarded {
    let page = 4096usize;
    let data_pages = (d.len() + page - 1) / page + 1;
    let map_len = (data_pages + 1) * page;
    unsafe {
        let base = libc::mmap(std::ptr::null_mut(), map_len, libc::PROT_READ | libc::PROT_WRITE, libc::MAP_PRIVATE | libc::MAP_ANONYMOUS, -1, 0) as *mut u8;
        assert!(base as isize != -1, "mmap failed");
        let guard = base.add(data_pages * page);
        libc::mprotect(guard as *mut libc::c_void, page, libc::PROT_NONE);
        let off = data_pages * page - d.len();
        std::ptr::copy_nonoverlapping(d.as_ptr(), base.add(off), d.len());
        Guarded { base, map_len, off }
    }
}

fn view(v: &Guarded, len: usize) -> &[u8] {
    unsafe { std::slice::from_raw_parts(v.base.add(v.off), len) }
}

#[derive(Clone)]
enum ModeArg {
    Hash,
    Keyed(KeyBuf),
    Derive(Vec<u8>),
}

fn parse_mode(t: &[&str]) -> Option<(ModeArg, usize)> {
    match t.first()? {
        &"hash" => Some((ModeArg::Hash, 1)),
        &"keyed" => {
            let k = unhex(t.get(1)?)?;
            Some((ModeArg::Keyed(KeyBuf::new(k.try_into().ok()?)), 2))
        }
        &"derive" => Some((ModeArg::Derive(unhex(t.get(1)?)?), 2)),
        _ => None,
    }
}

fn new_hasher(m: &ModeArg) -> Option<blake3::Hasher> {
    Some(match m {
        ModeArg::Hash => blake3::Hasher::new(),
        ModeArg::Keyed(k) => blake3::Hasher::new_keyed(k.key()),
        ModeArg::Derive(c) => blake3::Hasher::new_derive_key(std::str::from_utf8(c).ok()?),
    })
}

/// A reader that replays a script, one event per `read` call:
///   d<len>:<seed>        yield <len> pattern bytes; if the caller's buffer is smaller the rest stays
///                        pending and is served by the following calls; d0 is skipped
///   s<len>:<seed>:<k>    the same bytes, but at most <k> per call (short reads); exactly the
///                        behaviour of ceil(len/k) consecutive `d` events of <= k bytes each
///   i                    Err(Interrupted)
///   e | e:<Kind>         Err(Other) | Err(<Kind>) (see `script_error_kind`)
///   z                    Ok(0)
/// An exhausted script yields Ok(0).  `calls` counts the `read` calls made.
struct ScriptReader {
    events: Vec<String>,
    idx: usize,
    pending: Vec<u8>,
    ppos: usize,
    stream: Vec<u8>,
    spos: usize,
    sk: usize,
    calls: usize,
}

impl ScriptReader {
    fn new(events: &[&str]) -> Self {
        ScriptReader { events: events.iter().map(|s| s.to_string()).collect(), idx: 0, pending: vec![], ppos: 0, stream: vec![], spos: 0, sk: 0, calls: 0 }
    }
    /// bytes loaded from an event but not yet handed to the caller
    fn undelivered(&self) -> usize {
        (self.pending.len() - self.ppos) + (self.stream.len() - self.spos)
    }
}

fn script_error_kind(name: &str) -> std::io::ErrorKind {
    use std::io::ErrorKind::*;
    match name {
        "Other" => Other,
        "NotFound" => NotFound,
        "PermissionDenied" => PermissionDenied,
        "ConnectionReset" => ConnectionReset,
        "BrokenPipe" => BrokenPipe,
        "WouldBlock" => WouldBlock,
        "InvalidInput" => InvalidInput,
        "InvalidData" => InvalidData,
        "TimedOut" => TimedOut,
        "WriteZero" => WriteZero,
        "UnexpectedEof" => UnexpectedEof,
        "Unsupported" => Unsupported,
        "OutOfMemory" => OutOfMemory,
        _ => panic!("bad reader event"),
    }
}

impl Read for ScriptReader {
    fn read(&mut self, buf: &mut [u8]) -> std::io::Result<usize> {
        self.calls += 1;
        loop {
            if self.ppos < self.pending.len() {
                let n = std::cmp::min(buf.len(), self.pending.len() - self.ppos);
                buf[..n].copy_from_slice(&self.pending[self.ppos..self.ppos + n]);
                self.ppos += n;
                return Ok(n);
            }
            if self.spos < self.stream.len() {
                let n = std::cmp::min(self.sk, self.stream.len() - self.spos);
                self.pending = self.stream[self.spos..self.spos + n].to_vec();
                self.ppos = 0;
                self.spos += n;
                continue;
            }
            if self.idx >= self.events.len() {
                return Ok(0);
            }
            let ev = self.events[self.idx].clone();
            self.idx += 1;
            let (kind, rest) = ev.split_at(1);
            match kind {
                "d" => {
                    let mut it = rest.split(':');
                    let n: usize = it.next().unwrap().parse().unwrap();
                    let seed: u64 = it.next().unwrap().parse().unwrap();
                    self.pending = pat(n, seed);
                    self.ppos = 0;
                    if n == 0 {
                        continue;
                    }
                }
                "s" => {
                    let mut it = rest.split(':');
                    let n: usize = it.next().unwrap().parse().unwrap();
                    let seed: u64 = it.next().unwrap().parse().unwrap();
                    let k: usize = it.next().unwrap().parse().unwrap();
                    if k == 0 {
                        panic!("bad reader event");
                    }
                    self.stream = pat(n, seed);
                    self.spos = 0;
                    self.sk = k;
                }
                "i" if rest.is_empty() => return Err(std::io::Error::from(std::io::ErrorKind::Interrupted)),
                "e" if rest.is_empty() => return Err(std::io::Error::new(std::io::ErrorKind::Other, "scripted")),
                "e" if rest.starts_with(':') => return Err(std::io::Error::new(script_error_kind(&rest[1..]), "scripted")),
                "z" if rest.is_empty() => return Ok(0),
                _ => panic!("bad reader event"),
            }
        }
    }
}

#[derive(Default)]
struct St {
    hs: HashMap<String, blake3::Hasher>,
    xs: HashMap<String, blake3::OutputReader>,
    rs: HashMap<String, reference_impl::Hasher>,
    vs: HashMap<String, [u8; 32]>,
    #[allow(deprecated)]
    gs: HashMap<String, blake3::guts::ChunkState>,
}

fn hz_mode<'a>(m: &'a ModeArg, ck: &'a mut [u8; 32]) -> Option<Mode<'a>> {
    Some(match m {
        ModeArg::Hash => Mode::Hash,
        ModeArg::Keyed(k) => Mode::KeyedHash(k.key()),
        ModeArg::Derive(c) => {
            *ck = hazmat::hash_derive_key_context(std::str::from_utf8(c).ok()?);
            Mode::DeriveKeyMaterial(ck)
        }
    })
}

#[allow(deprecated)]
fn step(st: &mut St, t: &[&str]) -> Option<String> {
    let ok = Some("ok".to_string());
    match t {
        ["P", "plat", p] => {
            if blake3::platform::verif_hooks::set_platform_override(p) {
                CURRENT_PLAT.with(|c| *c.borrow_mut() = p.to_string());
                ok
            } else {
                Some("unsupported".into())
            }
        }
        ["H", "new", r, rest @ ..] => {
            let (m, n) = parse_mode(rest)?;
            if n != rest.len() {
                return None;
            }
            st.hs.insert(r.to_string(), new_hasher(&m)?);
            ok
        }
        ["H", "newck", r, ck] => {
            let k: [u8; 32] = unhex(ck)?.try_into().ok()?;
            st.hs.insert(r.to_string(), blake3::Hasher::new_from_context_key(&k));
            ok
        }
        ["H", "upd", r, rest @ ..] => {
            let (d, n) = parse_data(rest)?;
            if n != rest.len() {
                return None;
            }
            let mv = misaligned(&d);
            st.hs.get_mut(*r)?.update(view(&mv, d.len()));
            ok
        }
        ["H", "updwv", r, lens, rest @ ..] => {
            // io::Write::write_vectored with slices of the given lengths (comma separated; what is left of the data forms a last
            // slice), called again with the unconsumed rest until everything is accepted; prints the number of bytes accepted
            let (d, n) = parse_data(rest)?;
            if n != rest.len() {
                return None;
            }
            let lens: Vec<usize> = lens.split(',').map(|x| x.parse().ok()).collect::<Option<Vec<_>>>()?;
            let mut parts: Vec<&[u8]> = Vec::new();
            let mut off = 0usize;
            for l in lens {
                let l = l.min(d.len() - off);
                parts.push(&d[off..off + l]);
                off += l;
            }
            if off < d.len() {
                parts.push(&d[off..]);
            }
            let h = st.hs.get_mut(*r)?;
            let mut accepted = 0usize;
            let mut rounds = 0usize;
            while parts.iter().any(|p| !p.is_empty()) {
                let ios: Vec<std::io::IoSlice> = parts.iter().map(|p| std::io::IoSlice::new(p)).collect();
                let mut k = h.write_vectored(&ios).ok()?;
                let remaining: usize = parts.iter().map(|p| p.len()).sum();
                rounds += 1;
                if k == 0 || k > remaining || rounds > 100000 {
                    return Some(format!("err:accepted {} of {} in call {}", k, remaining, rounds));
                }
                accepted += k;
                for p in parts.iter_mut() {
                    let c = k.min(p.len());
                    *p = &p[c..];
                    k -= c;
                }
            }
            h.flush().ok()?;
            Some(format!("ok {}", accepted))
        }
        ["H", "updw", r, rest @ ..] => {
            let (d, _) = parse_data(rest)?;
            let n = st.hs.get_mut(*r)?.write(&d).ok()?;
            st.hs.get_mut(*r)?.flush().ok()?;
            Some(format!("ok {}", n))
        }
        ["H", "updray", r, threads, rest @ ..] => {
            let (d, _) = parse_data(rest)?;
            let pool = rayon_core::ThreadPoolBuilder::new().num_threads(threads.parse().ok()?).build().ok()?;
            let h = st.hs.get_mut(*r)?;
            pool.install(|| {
                h.update_rayon(&d);
            });
            ok
        }
        ["H", "updsj", r, script, rest @ ..] => {
            let (d, _) = parse_data(rest)?;
            let sc: Vec<u8> = script.bytes().filter(|c| *c != b'-').map(|c| c - b'0').collect();
            blake3::verif_set_join_script(&sc);
            st.hs.get_mut(*r)?.verif_update_scripted(&d);
            Some(format!("ok {}", blake3::verif_join_count()))
        }
        ["H", "updrd", r, events @ ..] => {
            let rd = ScriptReader::new(events);
            match st.hs.get_mut(*r)?.update_reader(rd) {
                Ok(_) => ok,
                Err(e) => Some(format!("err:{:?}", e.kind())),
            }
        }
        // as updrd, but also reports what update_reader left behind in the reader:
        // `<ok|err:Kind> <read calls made> <events consumed> <bytes loaded but not delivered>`
        ["H", "updrdx", r, events @ ..] => {
            let mut rd = ScriptReader::new(events);
            let res = match st.hs.get_mut(*r)?.update_reader(&mut rd) {
                Ok(_) => "ok".to_string(),
                Err(e) => format!("err:{:?}", e.kind()),
            };
            Some(format!("{} {} {} {}", res, rd.calls, rd.idx, rd.undelivered()))
        }
        ["H", "updmm", r, path] => match st.hs.get_mut(*r)?.update_mmap(path) {
            Ok(_) => ok,
            Err(e) => Some(format!("err:{:?}", e.kind())),
        },
        ["H", "updmmr", r, path] => match st.hs.get_mut(*r)?.update_mmap_rayon(path) {
            Ok(_) => ok,
            Err(e) => Some(format!("err:{:?}", e.kind())),
        },
        ["H", "updmmrp", r, threads, path] => {
            // update_mmap_rayon inside a pool of the given size (the pool size is part of C08's quantifier)
            let pool = rayon_core::ThreadPoolBuilder::new().num_threads(threads.parse().ok()?).build().ok()?;
            let h = st.hs.get_mut(*r)?;
            match pool.install(|| h.update_mmap_rayon(path).map(|_| ())) {
                Ok(_) => ok,
                Err(e) => Some(format!("err:{:?}", e.kind())),
            }
        }
        ["H", "updfile", r, path] => match std::fs::File::open(path) {
            Ok(f) => match st.hs.get_mut(*r)?.update_reader(f) {
                Ok(_) => ok,
                Err(e) => Some(format!("err:{:?}", e.kind())),
            },
            Err(e) => Some(format!("err:{:?}", e.kind())),
        },
        ["H", "fin", r] => Some(hex(st.hs.get(*r)?.finalize().as_bytes())),
        ["H", "xof", r, x] => {
            let rd = st.hs.get(*r)?.finalize_xof();
            st.xs.insert(x.to_string(), rd);
            ok
        }
        ["H", "cnt", r] => Some(st.hs.get(*r)?.count().to_string()),
        ["H", "clone", r, r2] => {
            let h = st.hs.get(*r)?.clone();
            st.hs.insert(r2.to_string(), h);
            ok
        }
        ["H", "clonefrom", src, dst] => {
            // Clone::clone_from into an existing hasher (whatever history it has)
            let s = st.hs.get(*src)?.clone();
            st.hs.get_mut(*dst)?.clone_from(&s);
            ok
        }
        ["H", "reset", r] => {
            st.hs.get_mut(*r)?.reset();
            ok
        }
        ["H", "off", r, o] => {
            st.hs.get_mut(*r)?.set_input_offset(o.parse().ok()?);
            ok
        }
        ["H", "cvnr", r] => Some(hex(&st.hs.get(*r)?.finalize_non_root())),
        ["H", "cvnr", r, v] => {
            let cv = st.hs.get(*r)?.finalize_non_root();
            st.vs.insert(v.to_string(), cv);
            Some(hex(&cv))
        }
        ["X", "fill", x, n] => {
            // the destination at an odd address (offset 1..7 of the allocation, by length), canaries around it
            let n: usize = n.parse().ok()?;
            let off = 1 + n % 7;
            let mut buf = vec![0xA5u8; off + n + 9];
            st.xs.get_mut(*x)?.fill(&mut buf[off..off + n]);
            if buf[..off].iter().any(|b| *b != 0xA5) || buf[off + n..].iter().any(|b| *b != 0xA5) {
                return Some("CANARY".into());
            }
            Some(hex(&buf[off..off + n]))
        }
        ["X", "read", x, n] => {
            let mut buf = vec![0u8; n.parse().ok()?];
            let k = st.xs.get_mut(*x)?.read(&mut buf).ok()?;
            Some(format!("{} {}", k, hex(&buf)))
        }
        ["X", "pos", x] => Some(st.xs.get(*x)?.position().to_string()),
        ["X", "setpos", x, p] => {
            st.xs.get_mut(*x)?.set_position(p.parse().ok()?);
            ok
        }
        ["X", "seek", x, whence, v] => {
            let sf = match *whence {
                "start" => SeekFrom::Start(v.parse().ok()?),
                "cur" => SeekFrom::Current(v.parse().ok()?),
                "end" => SeekFrom::End(v.parse().ok()?),
                _ => return None,
            };
            match st.xs.get_mut(*x)?.seek(sf) {
                Ok(p) => Some(p.to_string()),
                Err(_) => Some("err".into()),
            }
        }
        ["X", "rewind", x] => {
            // the provided methods of std::io::Seek, in case the impl overrides them
            match st.xs.get_mut(*x)?.rewind() {
                Ok(()) => Some(st.xs.get(*x)?.position().to_string()),
                Err(_) => Some("err".into()),
            }
        }
        ["X", "spos", x] => match st.xs.get_mut(*x)?.stream_position() {
            Ok(p) => Some(p.to_string()),
            Err(_) => Some("err".into()),
        },
        ["X", "clone", x, x2] => {
            let r = st.xs.get(*x)?.clone();
            st.xs.insert(x2.to_string(), r);
            ok
        }
        ["O", "hash", rest @ ..] => {
            let (m, n) = parse_mode(rest)?;
            let (d0, _) = parse_data(&rest[n..])?;
            // the input at an odd address (the one-shot functions take any slice)
            let mv = misaligned(&d0);
            let d = view(&mv, d0.len());
            Some(match m {
                ModeArg::Hash => hex(blake3::hash(d).as_bytes()),
                ModeArg::Keyed(k) => hex(blake3::keyed_hash(k.key(), d).as_bytes()),
                ModeArg::Derive(c) => hex(&blake3::derive_key(std::str::from_utf8(&c).ok()?, d)),
            })
        }
        ["Z", "merge", kind, rest @ ..] => {
            let (m, n) = parse_mode(rest)?;
            let l: [u8; 32] = unhex(rest.get(n)?)?.try_into().ok()?;
            let r: [u8; 32] = unhex(rest.get(n + 1)?)?.try_into().ok()?;
            let mut ck = [0u8; 32];
            let mode = hz_mode(&m, &mut ck)?;
            match *kind {
                "nonroot" => Some(hex(&hazmat::merge_subtrees_non_root(&l, &r, mode))),
                "root" => Some(hex(hazmat::merge_subtrees_root(&l, &r, mode).as_bytes())),
                "rootxof" => {
                    let x = rest.get(n + 2)?;
                    st.xs.insert(x.to_string(), hazmat::merge_subtrees_root_xof(&l, &r, mode));
                    ok
                }
                _ => None,
            }
        }
        ["Z", "mergev", kind, rest @ ..] => {
            let (m, n) = parse_mode(rest)?;
            let l = *st.vs.get(*rest.get(n)?)?;
            let r = *st.vs.get(*rest.get(n + 1)?)?;
            let mut ck = [0u8; 32];
            let mode = hz_mode(&m, &mut ck)?;
            match *kind {
                "nonroot" => {
                    let cv = hazmat::merge_subtrees_non_root(&l, &r, mode);
                    st.vs.insert(rest.get(n + 2)?.to_string(), cv);
                    Some(hex(&cv))
                }
                "root" => Some(hex(hazmat::merge_subtrees_root(&l, &r, mode).as_bytes())),
                "rootxof" => {
                    let x = rest.get(n + 2)?;
                    st.xs.insert(x.to_string(), hazmat::merge_subtrees_root_xof(&l, &r, mode));
                    ok
                }
                _ => None,
            }
        }
        ["Z", "ctxkey", c] => Some(hex(&hazmat::hash_derive_key_context(std::str::from_utf8(&unhex(c)?).ok()?))),
        ["Z", "lsl", n] => Some(hazmat::left_subtree_len(n.parse().ok()?).to_string()),
        ["Z", "msl", o] => Some(match hazmat::max_subtree_len(o.parse().ok()?) {
            None => "none".to_string(),
            Some(v) => v.to_string(),
        }),
        ["K", rest @ ..] => kernels::step(rest),
        // ---- reference implementation
        ["R", "new", r, rest @ ..] => {
            let (m, _) = parse_mode(rest)?;
            let h = match m {
                ModeArg::Hash => reference_impl::Hasher::new(),
                ModeArg::Keyed(k) => reference_impl::Hasher::new_keyed(k.key()),
                ModeArg::Derive(c) => reference_impl::Hasher::new_derive_key(std::str::from_utf8(&c).ok()?),
            };
            st.rs.insert(r.to_string(), h);
            ok
        }
        ["R", "upd", r, rest @ ..] => {
            let (d, _) = parse_data(rest)?;
            st.rs.get_mut(*r)?.update(&d);
            ok
        }
        ["R", "fin", r, n] => {
            let mut out = vec![0u8; n.parse().ok()?];
            st.rs.get(*r)?.finalize(&mut out);
            Some(hex(&out))
        }
        // ---- guts
        ["G", "new", g, counter] => {
            st.gs.insert(g.to_string(), blake3::guts::ChunkState::new(counter.parse().ok()?));
            ok
        }
        ["G", "upd", g, rest @ ..] => {
            let (d, _) = parse_data(rest)?;
            st.gs.get_mut(*g)?.update(&d);
            ok
        }
        ["G", "len", g] => Some(st.gs.get(*g)?.len().to_string()),
        ["G", "fin", g, root] => Some(hex(st.gs.get(*g)?.finalize(*root == "root").as_bytes())),
        // the same call; the model answers it with the behaviour of a build WITHOUT debug assertions (used by the `relnd` profile stage)
        ["G", "finrel", g, root] => Some(hex(st.gs.get(*g)?.finalize(*root == "root").as_bytes())),
        ["G", "parent", l, r, root] => {
            let l: [u8; 32] = unhex(l)?.try_into().ok()?;
            let r: [u8; 32] = unhex(r)?.try_into().ok()?;
            Some(hex(blake3::guts::parent_cv(&l.into(), &r.into(), *root == "root").as_bytes()))
        }
        // ---- RustCrypto traits
        ["T", "newkey", r, k] => {
            let k: [u8; 32] = unhex(k)?.try_into().ok()?;
            let h = <blake3::Hasher as digest::KeyInit>::new(&k.into());
            st.hs.insert(r.to_string(), h);
            ok
        }
        ["T", "newkeyslice", r, k] => match <blake3::Hasher as digest::KeyInit>::new_from_slice(&unhex(k)?) {
            Ok(h) => {
                st.hs.insert(r.to_string(), h);
                ok
            }
            Err(_) => Some("err".into()),
        },
        ["T", "upd", r, rest @ ..] => {
            let (d, _) = parse_data(rest)?;
            digest::Update::update(st.hs.get_mut(*r)?, &d);
            ok
        }
        ["T", "reset", r] => {
            digest::Reset::reset(st.hs.get_mut(*r)?);
            ok
        }
        ["T", "fin", r] => {
            let h = st.hs.get(*r)?.clone();
            Some(hex(&digest::FixedOutput::finalize_fixed(h)))
        }
        ["T", "finr", r] => Some(hex(&digest::FixedOutputReset::finalize_fixed_reset(st.hs.get_mut(*r)?))),
        ["T", "digestfin", r] => {
            // Digest::finalize through the blanket impl
            let h = st.hs.get(*r)?.clone();
            Some(hex(&digest::Digest::finalize(h)))
        }
        ["T", "mac", r] => {
            let h = st.hs.get(*r)?.clone();
            Some(hex(&digest::Mac::finalize(h).into_bytes()))
        }
        ["T", "macverify", r, tag] => {
            let h = st.hs.get(*r)?.clone();
            let tag = unhex(tag)?;
            Some(match digest::Mac::verify_slice(h, &tag) {
                Ok(()) => "ok".into(),
                Err(_) => "err".into(),
            })
        }
        ["T", "xof", r, x] => {
            let h = st.hs.get(*r)?.clone();
            st.xs.insert(x.to_string(), digest::ExtendableOutput::finalize_xof(h));
            ok
        }
        ["T", "xofr", r, x] => {
            let rd = digest::ExtendableOutputReset::finalize_xof_reset(st.hs.get_mut(*r)?);
            st.xs.insert(x.to_string(), rd);
            ok
        }
        ["T", "read", x, n] => {
            let mut buf = vec![0u8; n.parse().ok()?];
            digest::XofReader::read(st.xs.get_mut(*x)?, &mut buf);
            Some(hex(&buf))
        }
        // ---- Debug / zeroize
        ["D", "dbg", r] => Some(format!("{:?}", st.hs.get(*r)?).replace(' ', "_")),
        ["D", "dbgx", x] => Some(format!("{:?}", st.xs.get(*x)?).replace(' ', "_")),
        ["D", "dbgg", g] => Some(format!("{:?}", st.gs.get(*g)?).replace(' ', "_")),
        ["D", "zeroh", r] => {
            // snapshot the object's bytes after zeroize(): every byte must be zero except the
            // platform tag, which the model says is the only field left alone.
            use zeroize::Zeroize;
            let mut h = st.hs.get(*r)?.clone();
            h.zeroize();
            let bytes = unsafe { std::slice::from_raw_parts(&h as *const _ as *const u8, std::mem::size_of::<blake3::Hasher>()) };
            Some(format!("{} {}", bytes.len(), bytes.iter().filter(|b| **b != 0).count()))
        }
        // zeroize, secret-bearing bytes only: positions where two objects with equal public state but
        // different secrets differ must all be zero after zeroize() (no knowledge of field offsets needed).
        // prints `<size> <secret-bearing positions> <of those, non-zero after zeroize in either object>`
        ["D", "zerocmph", a, b] => {
            use zeroize::Zeroize;
            let (mut ha, mut hb) = (st.hs.get(*a)?.clone(), st.hs.get(*b)?.clone());
            let n = std::mem::size_of::<blake3::Hasher>();
            let raw = |h: &blake3::Hasher| unsafe { std::slice::from_raw_parts(h as *const _ as *const u8, n) }.to_vec();
            let (ra, rb) = (raw(&ha), raw(&hb));
            ha.zeroize();
            hb.zeroize();
            let (za, zb) = (raw(&ha), raw(&hb));
            let secret: Vec<usize> = (0..n).filter(|i| ra[*i] != rb[*i]).collect();
            let left = secret.iter().filter(|i| za[**i] != 0 || zb[**i] != 0).count();
            Some(format!("{} {} {}", n, secret.len(), left))
        }
        ["D", "zerocmpx", a, b] => {
            use zeroize::Zeroize;
            let (mut ha, mut hb) = (st.xs.get(*a)?.clone(), st.xs.get(*b)?.clone());
            let n = std::mem::size_of::<blake3::OutputReader>();
            let raw = |h: &blake3::OutputReader| unsafe { std::slice::from_raw_parts(h as *const _ as *const u8, n) }.to_vec();
            let (ra, rb) = (raw(&ha), raw(&hb));
            ha.zeroize();
            hb.zeroize();
            let (za, zb) = (raw(&ha), raw(&hb));
            let secret: Vec<usize> = (0..n).filter(|i| ra[*i] != rb[*i]).collect();
            let left = secret.iter().filter(|i| za[**i] != 0 || zb[**i] != 0).count();
            Some(format!("{} {} {}", n, secret.len(), left))
        }
        // the same with objects built by one non-inlined constructor called with different secrets, so that
        // whatever the padding bytes happen to contain is the same in every object unless it is secret-derived
        ["D", "zeroscan", kind, len, extra, rest @ ..] => {
            let len: usize = len.parse().ok()?;
            let extra: usize = extra.parse().ok()?;
            // optional mode (default keyed): in `hash` mode the secret is the input itself, in `derive` mode the context too
            let mode = match rest {
                [] => "keyed",
                [m] if ["hash", "keyed", "keyedz", "derive"].contains(m) => *m,
                _ => return None,
            };
            let snaps: Vec<(Vec<u8>, Vec<u8>)> = (1..=4u64).map(|seed| zero_snap(kind, mode, len, extra, seed)).collect::<Option<Vec<_>>>()?;
            let n = snaps[0].0.len();
            let secret: Vec<usize> = (0..n).filter(|i| snaps.iter().any(|s| s.0[*i] != snaps[0].0[*i])).collect();
            let left = secret.iter().filter(|i| snaps.iter().any(|s| s.1[**i] != 0)).count();
            let nonzero_after = (0..n).filter(|i| snaps.iter().any(|s| s.1[*i] != 0)).count();
            Some(format!("{} {} {} {}", n, secret.len(), left, nonzero_after))
        }
        // `jobs` independent hashers, each hashing the file with update_mmap_rayon, all started from worker threads of ONE rayon
        // pool of `threads` threads (a worker waiting in a join may pick up another hasher's job), with a deadline:
        // `ok <hex>` if all finish with the same digest, `MISMATCH ...` if they differ, `HANG <finished>/<jobs>` otherwise
        ["D", "poolmmap", threads, jobs, path] => {
            let threads: usize = threads.parse().ok()?;
            let jobs: usize = jobs.parse().ok()?;
            let path = path.to_string();
            let (tx, rx) = std::sync::mpsc::channel::<Result<[u8; 32], String>>();
            std::thread::spawn(move || {
                let pool = match rayon_core::ThreadPoolBuilder::new().num_threads(threads).build() {
                    Ok(p) => p,
                    Err(_) => return,
                };
                pool.scope(|sc| {
                    for _ in 0..jobs {
                        let tx = tx.clone();
                        let path = path.clone();
                        sc.spawn(move |_| {
                            let mut h = blake3::Hasher::new();
                            let r = match h.update_mmap_rayon(&path) {
                                Ok(_) => Ok(*h.finalize().as_bytes()),
                                Err(e) => Err(format!("err:{:?}", e.kind())),
                            };
                            let _ = tx.send(r);
                        });
                    }
                });
            });
            let deadline = std::time::Instant::now() + std::time::Duration::from_secs(20);
            let mut got: Vec<Result<[u8; 32], String>> = Vec::new();
            while got.len() < jobs {
                let left = deadline.saturating_duration_since(std::time::Instant::now());
                match rx.recv_timeout(left) {
                    Ok(r) => got.push(r),
                    Err(_) => return Some(format!("HANG {}/{}", got.len(), jobs)),
                }
            }
            match &got[0] {
                Err(e) => Some(e.clone()),
                Ok(first) => {
                    if got.iter().all(|g| g.as_ref().ok() == Some(first)) {
                        Some(format!("ok {}", hex(first)))
                    } else {
                        Some("MISMATCH between hashers of the same file".into())
                    }
                }
            }
        }
        ["D", "zerohash", a] => {
            use zeroize::Zeroize;
            let mut h = st.hs.get(*a)?.finalize();
            h.zeroize();
            Some(hex(h.as_bytes()))
        }
        ["D", "zerox", x] => {
            use zeroize::Zeroize;
            let mut h = st.xs.get(*x)?.clone();
            h.zeroize();
            let bytes = unsafe { std::slice::from_raw_parts(&h as *const _ as *const u8, std::mem::size_of::<blake3::OutputReader>()) };
            Some(format!("{} {}", bytes.len(), bytes.iter().filter(|b| **b != 0).count()))
        }
        // ---- Hash conversions
        ["E", rest @ ..] => conv_step(rest),
        [""] | [] => Some(String::new()),
        _ => None,
    }
}

#[inline(never)]
fn zero_snap(kind: &str, mode: &str, len: usize, extra: usize, seed: u64) -> Option<(Vec<u8>, Vec<u8>)> {
    use zeroize::Zeroize;
    fn raw<T>(h: &T) -> Vec<u8> {
        unsafe { std::slice::from_raw_parts(h as *const T as *const u8, std::mem::size_of::<T>()) }.to_vec()
    }
    let mut key: [u8; 32] = pat(32, seed.wrapping_mul(77)).try_into().ok()?;
    if mode == "keyedz" {
        // unusual but legal keys: all zero, all ones, a single set bit (the fourth stays random)
        match seed {
            1 => key = [0u8; 32],
            2 => key = [0xffu8; 32],
            3 => {
                key = [0u8; 32];
                key[31] = 1;
            }
            _ => {}
        }
    }
    let mut h = match mode {
        "hash" => blake3::Hasher::new(),
        "derive" => blake3::Hasher::new_derive_key(&format!("verif zeroscan context {}", seed)),
        _ => blake3::Hasher::new_keyed(&key),
    };
    h.update(&pat(len, seed));
    match kind {
        "h" => {
            let before = raw(&h);
            h.zeroize();
            Some((before, raw(&h)))
        }
        "x" => {
            let mut x = h.finalize_xof();
            let mut buf = vec![0u8; extra];
            x.fill(&mut buf);
            let before = raw(&x);
            x.zeroize();
            Some((before, raw(&x)))
        }
        "xs" | "xb" => {
            // a read that stops inside a block, then leaving that block: by a seek (xs) or by reading exactly to its end (xb)
            let mut x = h.finalize_xof();
            let mut buf = vec![0u8; extra];
            x.fill(&mut buf);
            if kind == "xs" {
                x.set_position(0);
            } else {
                let rest = (64 - extra % 64) % 64;
                let mut b2 = vec![0u8; rest];
                x.fill(&mut b2);
            }
            let before = raw(&x);
            x.zeroize();
            Some((before, raw(&x)))
        }
        "hash" => {
            let mut d = h.finalize();
            let before = raw(&d);
            d.zeroize();
            Some((before, raw(&d)))
        }
        "hashu" => {
            // the same Hash value placed at every address modulo 8 (a Hash has alignment 1: a field after a u8, a packed record)
            #[repr(C, align(8))]
            struct Slot([u8; 48]);
            let d = h.finalize();
            let (mut before, mut after) = (Vec::new(), Vec::new());
            for k in 0..8usize {
                let mut slot = Slot([0u8; 48]);
                let p = unsafe { slot.0.as_mut_ptr().add(k) } as *mut blake3::Hash;
                unsafe { std::ptr::write(p, d) };
                before.extend_from_slice(&slot.0[k..k + 32]);
                unsafe { (*p).zeroize() };
                after.extend_from_slice(&slot.0[k..k + 32]);
            }
            Some((before, after))
        }
        _ => None,
    }
}

fn conv_step(t: &[&str]) -> Option<String> {
    match t {
        ["tohex", h] => {
            let b: [u8; 32] = unhex(h)?.try_into().ok()?;
            let hash = blake3::Hash::from_bytes(b);
            let a = hash.to_hex().to_string();
            let d = format!("{}", hash);
            Some(format!("{} {}", a, if a == d { "same" } else { "differ" }))
        }
        ["fmt", spec, h] => {
            // Display under formatter flags (width, fill, alignment, precision, sign, alternate): the text must still be the 64 digits
            let b: [u8; 32] = unhex(h)?.try_into().ok()?;
            let hash = blake3::Hash::from_bytes(b);
            Some(match *spec {
                "plain" => format!("{}", hash),
                "prec8" => format!("{:.8}", hash),
                "prec0" => format!("{:.0}", hash),
                "prec64" => format!("{:.64}", hash),
                "prec100" => format!("{:.100}", hash),
                "w80" => format!("{:80}", hash),
                "w70r" => format!("{:>70}", hash),
                "w70l" => format!("{:<70}", hash),
                "w66c" => format!("{:^66}", hash),
                "w70fill" => format!("{:*<70}", hash),
                "w08" => format!("{:08}", hash),
                "w100zero" => format!("{:0100}", hash),
                "alt" => format!("{:#}", hash),
                "plus" => format!("{:+}", hash),
                "argw" => format!("{:1$}", hash, 90),
                "argp" => format!("{:.*}", 5, hash),
                "tostring" => hash.to_string(),
                _ => return None,
            })
        }
        ["fromhexbig", n, s] => {
            // from_hex on an input of <n> bytes (zero pages from the allocator, never touched) whose first bytes are <s>:
            // lengths that only differ from 64 above bit 31
            let n: usize = n.parse().ok()?;
            let head = unhex(s)?;
            if head.len() > n || n > (1usize << 34) {
                return None;
            }
            let mut v = vec![0u8; n];
            v[..head.len()].copy_from_slice(&head);
            Some(match blake3::Hash::from_hex(&v) {
                Ok(h) => hex(h.as_bytes()),
                Err(e) => format!("err:{:?}", e),
            })
        }
        ["fromhexre", s1, s2] => {
            // from_hex is generic over AsRef<[u8]>: an argument whose as_ref() shows s1 at the first look and s2 afterwards
            // (a refilled buffer behind interior mutability - safe code).  The code looks once, so the result is that of s1.
            struct Refill(Vec<u8>, Vec<u8>, std::cell::Cell<usize>);
            impl AsRef<[u8]> for Refill {
                fn as_ref(&self) -> &[u8] {
                    let k = self.2.get();
                    self.2.set(k + 1);
                    if k == 0 { &self.0 } else { &self.1 }
                }
            }
            let arg = Refill(unhex(s1)?, unhex(s2)?, std::cell::Cell::new(0));
            Some(match blake3::Hash::from_hex(&arg) {
                Ok(h) => hex(h.as_bytes()),
                Err(e) => format!("err:{:?}", e),
            })
        }
        ["fromhex", s] => {
            // s is the hex encoding of the *input bytes* given to from_hex
            let inp = unhex(s)?;
            // the error kind is printed through the derived Debug: err:HexError(InvalidByte(103))
            Some(match blake3::Hash::from_hex(&inp) {
                Ok(h) => hex(h.as_bytes()),
                Err(e) => format!("err:{:?}", e),
            })
        }
        ["fromstr", s] => {
            let inp = unhex(s)?;
            let st = std::str::from_utf8(&inp).ok()?;
            Some(match st.parse::<blake3::Hash>() {
                Ok(h) => hex(h.as_bytes()),
                Err(e) => format!("err:{:?}", e),
            })
        }
        ["fromslice", s] => {
            let inp = unhex(s)?;
            Some(match blake3::Hash::from_slice(&inp) {
                Ok(h) => hex(h.as_bytes()),
                Err(_) => "err".into(),
            })
        }
        ["eq", a, b] => {
            let a: [u8; 32] = unhex(a)?.try_into().ok()?;
            let bb0 = unhex(b)?;
            // both operands at odd addresses: the Hash at offset 1..8 of an 8-aligned slot, the slice inside a misaligned copy
            #[repr(C, align(8))]
            struct Slot([u8; 48]);
            let mut slot = Slot([0u8; 48]);
            let k = 1 + (a[0] as usize % 8);
            let hp = unsafe { slot.0.as_mut_ptr().add(k) } as *mut blake3::Hash;
            unsafe { std::ptr::write(hp, blake3::Hash::from_bytes(a)) };
            let ha: &blake3::Hash = unsafe { &*hp };
            let mv = misaligned(&bb0);
            let bb = view(&mv, bb0.len());
            let r_slice = *ha == bb[..];
            let mut out = format!("slice:{}", r_slice);
            if let Ok(b32r) = <&[u8; 32]>::try_from(bb) {
                out.push_str(&format!(" arr:{} hash:{}", *ha == *b32r, *ha == blake3::Hash::from_bytes(*b32r)));
            }
            Some(out)
        }
        ["arr", h] => {
            let b: [u8; 32] = unhex(h)?.try_into().ok()?;
            let hash: blake3::Hash = b.into();
            let back: [u8; 32] = hash.into();
            Some(format!("{} {}", hex(&back), hex(hash.as_bytes())))
        }
        ["bin", h] => {
            // compact binary format: wire bytes, the value read back, and the number of bytes left over
            let b: [u8; 32] = unhex(h)?.try_into().ok()?;
            let hash = blake3::Hash::from_bytes(b);
            let wire = binfmt::to_bytes(&hash);
            // a record (hash, marker byte): a wire form of the wrong width shifts the marker
            let rec = binfmt::to_bytes(&(hash, 0xA5u8));
            let back = match binfmt::from_bytes::<blake3::Hash>(&wire) { Ok((v, rest)) => format!("{} {}", hex(v.as_bytes()), rest), Err(_) => "err".into() };
            let back2 = match binfmt::from_bytes::<(blake3::Hash, u8)>(&rec) { Ok(((v, m), rest)) => format!("{} {} {}", hex(v.as_bytes()), m, rest), Err(_) => "err".into() };
            // interchangeable with a plain [u8; 32]
            let arr = match binfmt::from_bytes::<[u8; 32]>(&wire) { Ok((v, rest)) => format!("{} {}", hex(&v), rest), Err(_) => "err".into() };
            Some(format!("{} {} {} {}", hex(&wire), back, back2, arr).replace(' ', "_"))
        }
        ["json", h] => {
            let b: [u8; 32] = unhex(h)?.try_into().ok()?;
            let hash = blake3::Hash::from_bytes(b);
            let j = serde_json::to_string(&hash).ok()?;
            let back: blake3::Hash = serde_json::from_str(&j).ok()?;
            Some(format!("{} {}", j.replace(' ', ""), hex(back.as_bytes())))
        }
        ["cbor", h] => {
            let b: [u8; 32] = unhex(h)?.try_into().ok()?;
            let hash = blake3::Hash::from_bytes(b);
            let mut v = Vec::new();
            ciborium::into_writer(&hash, &mut v).ok()?;
            let back: blake3::Hash = ciborium::from_reader(&v[..]).ok()?;
            // legacy byte-string form
            let mut legacy = vec![0x58, 0x20];
            legacy.extend_from_slice(&b);
            let back2: blake3::Hash = ciborium::from_reader(&legacy[..]).ok()?;
            Some(format!("{} {} {}", hex(&v), hex(back.as_bytes()), hex(back2.as_bytes())))
        }
        ["dbg", h] => {
            let b: [u8; 32] = unhex(h)?.try_into().ok()?;
            Some(format!("{:?}", blake3::Hash::from_bytes(b)))
        }
        ["jsondec", s] => {
            // s is the hex encoding of the JSON text (any bytes)
            let inp = unhex(s)?;
            Some(match serde_json::from_slice::<blake3::Hash>(&inp) {
                Ok(h) => hex(h.as_bytes()),
                Err(_) => "err".into(),
            })
        }
        ["cbordec", s] => {
            let inp = unhex(s)?;
            Some(match ciborium::from_reader::<blake3::Hash, _>(&inp[..]) {
                Ok(h) => hex(h.as_bytes()),
                Err(_) => "err".into(),
            })
        }
        _ => None,
    }
}

fn run_line(st: &mut St, line: &str) -> String {
    let mut toks: Vec<&str> = line.trim().split(' ').collect();
    // `NR <op>`: after a panic the register keeps whatever state the unwinding left in it (a caller that catches the panic
    // and goes on using the hasher sees exactly that)
    let no_restore = toks.first() == Some(&"NR");
    if no_restore {
        toks.remove(0);
    }
    let backup_h = match toks.as_slice() {
        _ if no_restore => None,
        ["H", _, r, ..] | ["T", _, r, ..] => st.hs.get(*r).cloned().map(|h| (r.to_string(), h)),
        _ => None,
    };
    let res = catch_unwind(AssertUnwindSafe(|| step(st, &toks)));
    match res {
        Ok(Some(s)) => s,
        Ok(None) => "bad-op".to_string(),
        Err(_) => {
            if let Some((r, h)) = backup_h {
                st.hs.insert(r, h);
            }
            "PANIC".to_string()
        }
    }
}

/// `--threads`: stdin is a sequence of sections introduced by `#thread` lines; every section runs
/// on its own thread with its own registers, all released together by a barrier, so that the very
/// first calls into the library (CPU feature detection) race. Output: same line structure.
fn main_threads() {
    let mut input = String::new();
    std::io::stdin().read_to_string(&mut input).unwrap();
    let mut sections: Vec<Vec<String>> = Vec::new();
    for line in input.lines() {
        if line.trim() == "#thread" {
            sections.push(Vec::new());
        } else if let Some(last) = sections.last_mut() {
            last.push(line.to_string());
        }
    }
    let barrier = std::sync::Arc::new(std::sync::Barrier::new(sections.len().max(1)));
    let handles: Vec<_> = sections
        .into_iter()
        .map(|sec| {
            let b = barrier.clone();
            std::thread::spawn(move || {
                let mut st = St::default();
                b.wait();
                sec.iter().map(|l| run_line(&mut st, l)).collect::<Vec<String>>()
            })
        })
        .collect();
    let stdout = std::io::stdout();
    let mut out = std::io::BufWriter::new(stdout.lock());
    for h in handles {
        writeln!(out, "#thread").unwrap();
        for l in h.join().unwrap() {
            writeln!(out, "{}", l).unwrap();
        }
    }
    out.flush().unwrap();
}

fn main() {
    std::panic::set_hook(Box::new(|_| {}));
    if std::env::args().any(|a| a == "--threads") {
        return main_threads();
    }
    let stdin = std::io::stdin();
    let stdout = std::io::stdout();
    let mut out = std::io::BufWriter::new(stdout.lock());
    let mut st = St::default();
    for line in stdin.lock().lines() {
        let line = line.unwrap();
        let mut toks: Vec<&str> = line.trim().split(' ').collect();
        let no_restore = toks.first() == Some(&"NR");
        if no_restore {
            toks.remove(0);
        }
        // keep copies so a panic in the middle of a mutating op leaves the registers as they were (unless `NR`)
        let backup_h = match toks.as_slice() {
            _ if no_restore => None,
            ["H", _, r, ..] | ["T", _, r, ..] => st.hs.get(*r).cloned().map(|h| (r.to_string(), h)),
            _ => None,
        };
        let res = catch_unwind(AssertUnwindSafe(|| step(&mut st, &toks)));
        let o = match res {
            Ok(Some(s)) => s,
            Ok(None) => "bad-op".to_string(),
            Err(_) => {
                if let Some((r, h)) = backup_h {
                    st.hs.insert(r, h);
                }
                "PANIC".to_string()
            }
        };
        writeln!(out, "{}", o).unwrap();
    }
    out.flush().unwrap();
}
