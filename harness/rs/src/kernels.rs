// Kernel-level ops (C05): the four kernels of every Platform the CPU supports.
use blake3::platform::Platform;
use blake3::IncrementCounter;

/// the Platform value for a level name, obtained through the hook (so that levels the build does not
/// contain, e.g. AVX-512 in a `pure` build, simply report `unsupported`); the caller's override is restored
fn plat(name: &str) -> Option<Platform> {
    let ok = blake3::platform::verif_hooks::set_platform_override(name);
    let p = if ok { Some(Platform::detect()) } else { None };
    let cur = super::CURRENT_PLAT.with(|c| c.borrow().clone());
    blake3::platform::verif_hooks::set_platform_override(&cur);
    p
}

fn words(b: &[u8]) -> [u32; 8] {
    let mut w = [0u32; 8];
    for i in 0..8 {
        w[i] = u32::from_le_bytes(b[4 * i..4 * i + 4].try_into().unwrap());
    }
    w
}

pub fn step(t: &[&str]) -> Option<String> {
    match t {
        ["cip", p, cv, block, bl, ctr, fl] => {
            let Some(p) = plat(p) else { return Some("unsupported".into()) };
            let mut cvw = words(&super::unhex(cv)?);
            let block: [u8; 64] = super::unhex(block)?.try_into().ok()?;
            p.compress_in_place(&mut cvw, &block, bl.parse().ok()?, ctr.parse().ok()?, fl.parse().ok()?);
            let mut out = vec![];
            for w in cvw {
                out.extend_from_slice(&w.to_le_bytes());
            }
            Some(super::hex(&out))
        }
        ["cxof", p, cv, block, bl, ctr, fl] => {
            let Some(p) = plat(p) else { return Some("unsupported".into()) };
            let cvw = words(&super::unhex(cv)?);
            let block: [u8; 64] = super::unhex(block)?.try_into().ok()?;
            let out = p.compress_xof(&cvw, &block, bl.parse().ok()?, ctr.parse().ok()?, fl.parse().ok()?);
            Some(super::hex(&out))
        }
        // hmany <plat> <n> <blocks 1|16> <seed> <key> <counter> <incr> <flags> <fstart> <fend> <inoff> <outoff>
        ["hmany", p, n, blocks, seed, key, ctr, incr, fl, fs, fe, inoff, outoff] => {
            let Some(p) = plat(p) else { return Some("unsupported".into()) };
            let n: usize = n.parse().ok()?;
            let blocks: usize = blocks.parse().ok()?;
            let inoff: usize = inoff.parse().ok()?;
            let outoff: usize = outoff.parse().ok()?;
            let len = blocks * 64;
            let keyw = words(&super::unhex(key)?);
            // all inputs in one buffer at a chosen misalignment; input i is pattern(seed + i)
            let mut buf = vec![0u8; inoff + n * len + 64];
            for i in 0..n {
                let d = super::pat(len, seed.parse::<u64>().ok()?.wrapping_add(i as u64));
                buf[inoff + i * len..inoff + (i + 1) * len].copy_from_slice(&d);
            }
            let incr = if *incr == "1" { IncrementCounter::Yes } else { IncrementCounter::No };
            let (ctr, fl, fs, fe) = (ctr.parse().ok()?, fl.parse().ok()?, fs.parse().ok()?, fe.parse().ok()?);
            // twice: with an output slice of exactly 32 * n bytes, and - as the library's own callers do - with a longer slice
            // (160 bytes of slack) of which only the first 32 * n bytes may be written
            let mut outs: Vec<Vec<u8>> = Vec::new();
            let mut intact = true;
            for slack in [0usize, 160] {
                let mut out = vec![0xAAu8; outoff + n * 32 + slack + 32];
                {
                    let dst = &mut out[outoff..outoff + n * 32 + slack];
                    if blocks == 1 {
                        let ins: Vec<&[u8; 64]> = (0..n).map(|i| <&[u8; 64]>::try_from(&buf[inoff + i * 64..inoff + (i + 1) * 64]).unwrap()).collect();
                        p.hash_many(&ins, &keyw, ctr, incr, fl, fs, fe, dst);
                    } else if blocks == 16 {
                        let ins: Vec<&[u8; 1024]> = (0..n).map(|i| <&[u8; 1024]>::try_from(&buf[inoff + i * 1024..inoff + (i + 1) * 1024]).unwrap()).collect();
                        p.hash_many(&ins, &keyw, ctr, incr, fl, fs, fe, dst);
                    } else {
                        return None;
                    }
                }
                // everything around the 32 * n output bytes must be intact
                intact &= out[..outoff].iter().all(|b| *b == 0xAA) && out[outoff + n * 32..].iter().all(|b| *b == 0xAA);
                outs.push(out[outoff..outoff + n * 32].to_vec());
            }
            let same = outs[0] == outs[1];
            Some(format!("{}{}{}", super::hex(&outs[0]), if intact { "" } else { " CANARY" }, if same { "" } else { " MISMATCH" }))
        }
        ["xofmany", p, cv, block, bl, ctr, fl, n] => {
            let Some(p) = plat(p) else { return Some("unsupported".into()) };
            let cvw = words(&super::unhex(cv)?);
            let block: [u8; 64] = super::unhex(block)?.try_into().ok()?;
            let n: usize = n.parse().ok()?;
            let mut out = vec![0xAAu8; n * 64 + 64];
            p.xof_many(&cvw, &block, bl.parse().ok()?, ctr.parse().ok()?, fl.parse().ok()?, &mut out[..n * 64]);
            let intact = out[n * 64..].iter().all(|b| *b == 0xAA);
            Some(format!("{}{}", super::hex(&out[..n * 64]), if intact { "" } else { " CANARY" }))
        }
        _ => None,
    }
}
